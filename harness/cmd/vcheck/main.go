// vcheck is the supervisor and the child runner of the /verif monitors.
//
//	vcheck run    -prop C07 -tier quick [-seed N] [-racebin path]   supervisor
//	vcheck child  -prop C07 -tier quick -seed N -shard i -nshards K -leg main -out file
//	vcheck replay -file evidence/replay/C07-1.json [-racebin path]
//	vcheck list
package main

import (
	"bufio"
	"bytes"
	"encoding/json"
	"flag"
	"fmt"
	"os"
	"os/exec"
	"path/filepath"
	"regexp"
	"runtime"
	"sort"
	"strconv"
	"strings"
	"sync"
	"syscall"
	"time"

	"verifharness/internal/core"

	_ "verifharness/engines"
)

func main() {
	if len(os.Args) < 2 {
		fmt.Fprintln(os.Stderr, "usage: vcheck run|child|replay|list ...")
		os.Exit(2)
	}
	switch os.Args[1] {
	case "run":
		os.Exit(runSupervisor(os.Args[2:]))
	case "child":
		os.Exit(runChild(os.Args[2:]))
	case "replay":
		os.Exit(runReplay(os.Args[2:]))
	case "list":
		for _, p := range core.Props() {
			m := core.MetaOf(p)
			fmt.Printf("%s race_shards=%d\n", p, m.RaceShards)
		}
	default:
		fmt.Fprintln(os.Stderr, "unknown command", os.Args[1])
		os.Exit(2)
	}
}

// ---------------------------------------------------------------------------
// child

func runChild(args []string) int {
	fs := flag.NewFlagSet("child", flag.ExitOnError)
	prop := fs.String("prop", "", "")
	tier := fs.String("tier", "quick", "")
	seed := fs.Int64("seed", 1, "")
	shard := fs.Int("shard", 0, "")
	nshards := fs.Int("nshards", 1, "")
	leg := fs.String("leg", "main", "")
	out := fs.String("out", "", "")
	only := fs.String("only", "", "")
	replay := fs.String("replayinput", "", "file holding the JSON input of the case to replay")
	fs.Parse(args)
	e, ok := core.Lookup(*prop)
	if !ok {
		fmt.Fprintln(os.Stderr, "no engine for", *prop)
		return 3
	}
	c, err := core.NewCtx(*prop, *tier, *seed, *shard, *nshards, *out)
	if err != nil {
		fmt.Fprintln(os.Stderr, err)
		return 3
	}
	c.Leg = *leg
	c.Race = raceEnabled
	c.OnlyCase = *only
	if *replay != "" {
		b, err := os.ReadFile(*replay)
		if err != nil {
			fmt.Fprintln(os.Stderr, err)
			return 3
		}
		c.Replay = b
	}
	e(c)
	c.Finish()
	return 0
}

// ---------------------------------------------------------------------------
// supervisor

type violation struct {
	Key    string
	Detail string
	Case   string
	Input  any
	Shard  int
	Leg    string
}

type shardResult struct {
	leg      string
	shard    int
	nshards  int
	done     *core.Record
	viols    []violation
	openCase *core.Record
	exitErr  error
	timedOut bool
	stderr   string
	wall     float64
}

type finding struct{ prop, key, text string }

func loadKnown(path string) (findings []finding) {
	b, err := os.ReadFile(path)
	if err != nil {
		return nil
	}
	re := regexp.MustCompile(`^finding:\s+property=(C\d+)\s+key=(\S+)\s*(.*)$`)
	for _, l := range strings.Split(string(b), "\n") {
		if m := re.FindStringSubmatch(strings.TrimSpace(l)); m != nil {
			findings = append(findings, finding{m[1], m[2], m[3]})
		}
	}
	return
}

func normKey(k string) string {
	k = strings.Join(strings.Fields(k), "_")
	if len(k) > 200 {
		k = k[:200]
	}
	return k
}

func verifRoot() string {
	if r := os.Getenv("VERIF_ROOT"); r != "" {
		return r
	}
	return "/verif"
}

func runSupervisor(args []string) int {
	fs := flag.NewFlagSet("run", flag.ExitOnError)
	prop := fs.String("prop", "", "")
	tier := fs.String("tier", "quick", "")
	seedF := fs.Int64("seed", -1, "")
	racebin := fs.String("racebin", "", "")
	par := fs.Int("par", runtime.NumCPU(), "")
	fs.Parse(args)
	seed := *seedF
	if seed < 0 {
		seed = 1
		if s := os.Getenv("VERIF_SEED"); s != "" {
			if v, err := strconv.ParseInt(s, 10, 64); err == nil {
				seed = v
			}
		}
	}
	if _, ok := core.Lookup(*prop); !ok {
		fmt.Printf("INCONCLUSIVE property=%s reason=no-engine\n", *prop)
		return 2
	}
	start := time.Now()
	meta := core.MetaOf(*prop)
	root := verifRoot()
	work, err := os.MkdirTemp("", "vcheck-"+*prop+"-")
	if err != nil {
		fmt.Println("INCONCLUSIVE property=" + *prop + " reason=tmpdir")
		return 2
	}
	defer os.RemoveAll(work)

	self, _ := os.Executable()
	type job struct {
		leg            string
		shard, nshards int
		bin            string
	}
	var jobs []job
	n := meta.Shards
	if n == 0 {
		n = 16
	}
	for i := 0; i < n; i++ {
		jobs = append(jobs, job{"main", i, n, self})
	}
	if meta.RaceShards > 0 {
		if *racebin == "" {
			fmt.Printf("INCONCLUSIVE property=%s reason=race-binary-missing\n", *prop)
			return 2
		}
		for i := 0; i < meta.RaceShards; i++ {
			jobs = append(jobs, job{"race", i, meta.RaceShards, *racebin})
		}
	}
	timeout := 20 * time.Minute
	if meta.ChildTimeoutQuick > 0 {
		timeout = time.Duration(meta.ChildTimeoutQuick) * time.Second
	}
	if *tier == "thorough" {
		timeout = 4 * time.Hour
		if meta.ChildTimeoutThorough > 0 {
			timeout = time.Duration(meta.ChildTimeoutThorough) * time.Second
		}
	}

	results := make([]*shardResult, len(jobs))
	sem := make(chan struct{}, *par)
	var wg sync.WaitGroup
	for ji, j := range jobs {
		wg.Add(1)
		go func(ji int, j job) {
			defer wg.Done()
			sem <- struct{}{}
			defer func() { <-sem }()
			results[ji] = runShard(work, *prop, *tier, seed, j.leg, j.shard, j.nshards, j.bin, meta, timeout, "", "")
		}(ji, j)
	}
	wg.Wait()

	// race logs
	raceViols, raceReports := collectRaceReports(work, meta)

	return conclude(*prop, *tier, seed, meta, root, results, raceViols, raceReports, time.Since(start).Seconds(), true)
}

func runShard(work, prop, tier string, seed int64, leg string, shard, nshards int, bin string, meta core.Meta, timeout time.Duration, only, replayInput string) *shardResult {
	res := &shardResult{leg: leg, shard: shard, nshards: nshards}
	out := filepath.Join(work, fmt.Sprintf("%s-%s-%d.jsonl", prop, leg, shard))
	errf := filepath.Join(work, fmt.Sprintf("%s-%s-%d.stderr", prop, leg, shard))
	a := []string{"child", "-prop", prop, "-tier", tier, "-seed", strconv.FormatInt(seed, 10),
		"-shard", strconv.Itoa(shard), "-nshards", strconv.Itoa(nshards), "-leg", leg, "-out", out}
	if only != "" {
		a = append(a, "-only", only)
	}
	if replayInput != "" {
		a = append(a, "-replayinput", replayInput)
	}
	cmd := exec.Command(bin, a...)
	ef, _ := os.Create(errf)
	cmd.Stdout = ef
	cmd.Stderr = ef
	cmd.Env = append(os.Environ(), meta.Env...)
	if leg == "main" && meta.GoMaxProcs > 0 {
		cmd.Env = append(cmd.Env, "GOMAXPROCS="+strconv.Itoa(meta.GoMaxProcs))
	}
	if leg == "race" {
		cmd.Env = append(cmd.Env, "GORACE=halt_on_error=0 history_size=3 log_path="+filepath.Join(work, "race-"+strconv.Itoa(shard)))
	}
	cmd.Env = append(cmd.Env, "GOTRACEBACK=all")
	t0 := time.Now()
	if err := cmd.Start(); err != nil {
		res.exitErr = err
		ef.Close()
		return res
	}
	waitc := make(chan error, 1)
	go func() { waitc <- cmd.Wait() }()
	select {
	case err := <-waitc:
		res.exitErr = err
	case <-time.After(timeout):
		res.timedOut = true
		cmd.Process.Signal(syscall.SIGQUIT)
		select {
		case <-waitc:
		case <-time.After(20 * time.Second):
			cmd.Process.Kill()
			<-waitc
		}
	}
	ef.Close()
	res.wall = time.Since(t0).Seconds()
	if b, err := os.ReadFile(errf); err == nil {
		if len(b) > 20000 {
			b = append(b[:10000], b[len(b)-10000:]...)
		}
		res.stderr = string(b)
	}
	f, err := os.Open(out)
	if err != nil {
		return res
	}
	defer f.Close()
	sc := bufio.NewScanner(f)
	sc.Buffer(make([]byte, 1<<20), 1<<30)
	open := map[string]*core.Record{}
	var lastOpen string
	for sc.Scan() {
		var r core.Record
		if json.Unmarshal(sc.Bytes(), &r) != nil {
			continue
		}
		switch r.T {
		case "begin":
			rr := r
			open[r.Case] = &rr
			lastOpen = r.Case
		case "end":
			delete(open, r.Case)
		case "viol":
			res.viols = append(res.viols, violation{Key: normKey(r.Key), Detail: r.Detail, Case: r.Case, Input: r.Input, Shard: shard, Leg: leg})
		case "done":
			rr := r
			res.done = &rr
		}
	}
	if res.done == nil {
		if o, ok := open[lastOpen]; ok {
			res.openCase = o
		}
	}
	return res
}

var (
	reRaceFrame = regexp.MustCompile(`(?m)^\s+(github\.com/zmap/zcrypto/\S+)\(\)\s*$`)
	reFatal     = regexp.MustCompile(`(?m)^(fatal error: .*|panic: .*|runtime: .*out of memory.*)$`)
)

// collectRaceReports parses race-detector logs: one violation per distinct
// (outermost zcrypto frame of access 1, of access 2) pair.
func collectRaceReports(work string, meta core.Meta) (viols []violation, total int) {
	files, _ := filepath.Glob(filepath.Join(work, "race-*"))
	seen := map[string]bool{}
	for _, fn := range files {
		b, err := os.ReadFile(fn)
		if err != nil {
			continue
		}
		blocks := strings.Split(string(b), "WARNING: DATA RACE")
		for _, blk := range blocks[1:] {
			total++
			if i := strings.Index(blk, "=================="); i >= 0 {
				blk = blk[:i]
			}
			// split into the two access stacks (the goroutine-creation stacks follow)
			parts := regexp.MustCompile(`(?m)^(Previous |)(read|write|atomic read|atomic write) at `).Split(blk, -1)
			var fr []string
			for _, p := range parts[1:] {
				if i := strings.Index(p, "\n\n"); i >= 0 {
					p = p[:i]
				}
				m := reRaceFrame.FindStringSubmatch(p)
				if m != nil {
					fr = append(fr, strings.TrimPrefix(m[1], "github.com/zmap/zcrypto/"))
				} else {
					fr = append(fr, "-")
				}
			}
			attributed := false
			for _, pk := range meta.RacePkgs {
				if strings.Contains(blk, pk) {
					attributed = true
				}
			}
			if len(meta.RacePkgs) == 0 && strings.Contains(blk, "github.com/zmap/zcrypto/") {
				attributed = true
			}
			if !attributed {
				continue
			}
			sort.Strings(fr)
			key := normKey("race:" + strings.Join(fr, "|"))
			if seen[key] {
				continue
			}
			seen[key] = true
			if len(blk) > 6000 {
				blk = blk[:6000]
			}
			viols = append(viols, violation{Key: key, Detail: "WARNING: DATA RACE" + blk, Leg: "race", Case: filepath.Base(fn)})
		}
	}
	return
}

type evidence struct {
	PropertyID  string         `json:"property_id"`
	Tier        string         `json:"tier"`
	Seed        int64          `json:"seed"`
	Level       string         `json:"level"`
	Coverage    map[string]any `json:"coverage"`
	Assumptions []string       `json:"assumptions"`
	WallS       float64        `json:"wall_s"`
	Violations  int            `json:"violations"`
}

func conclude(prop, tier string, seed int64, meta core.Meta, root string, results []*shardResult, raceViols []violation, raceReports int, wall float64, writeEvidence bool) int {
	known := loadKnown(filepath.Join(root, "KNOWN_FINDINGS.txt"))
	var evals, sigExtra int64
	counters := map[string]int64{}
	sigs := map[uint64]struct{}{}
	exh := map[string]int64{}
	var samples []any
	var notes []string
	var viols []violation
	var inconclusive []string
	for _, r := range results {
		if r == nil {
			inconclusive = append(inconclusive, "shard-not-run")
			continue
		}
		viols = append(viols, r.viols...)
		if r.done != nil {
			evals += r.done.Evals
			sigExtra += r.done.SigExtra
			for k, v := range r.done.Counters {
				if strings.HasPrefix(k, "max_") {
					if v > counters[k] {
						counters[k] = v
					}
				} else {
					counters[k] += v
				}
			}
			for _, s := range r.done.Sigs {
				sigs[s] = struct{}{}
			}
			for k, v := range r.done.Exh {
				exh[k] += v
			}
			if len(samples) < 8 {
				for _, s := range r.done.Samples {
					if len(samples) < 8 {
						samples = append(samples, s)
					}
				}
			}
			for _, nt := range r.done.Notes {
				if len(notes) < 20 {
					notes = append(notes, nt)
				}
			}
			continue
		}
		// child did not finish
		fatal := ""
		if m := reFatal.FindString(r.stderr); m != "" {
			fatal = m
		}
		switch {
		case r.timedOut:
			inconclusive = append(inconclusive, fmt.Sprintf("watchdog leg=%s shard=%d", r.leg, r.shard))
			os.MkdirAll(filepath.Join(root, "evidence", "replay"), 0o755)
			os.WriteFile(filepath.Join(root, "evidence", "replay", fmt.Sprintf("%s-watchdog-%s-%d.txt", prop, r.leg, r.shard)), []byte(r.stderr), 0o644)
		case r.openCase != nil:
			frame := "?"
			if m := regexp.MustCompile(`(?m)^(github\.com/zmap/zcrypto\S*)\(`).FindStringSubmatch(r.stderr); m != nil {
				frame = strings.TrimPrefix(m[1], "github.com/zmap/zcrypto/")
			}
			fk := regexp.MustCompile(`\b(0x[0-9a-fA-F]+|\d+)\b`).ReplaceAllString(fatal, "N")
			viols = append(viols, violation{Key: normKey("crash:" + fk + "@" + frame), Detail: "child process died while running this case\n" + r.stderr,
				Case: r.openCase.Case, Input: r.openCase.Input, Shard: r.shard, Leg: r.leg})
		default:
			inconclusive = append(inconclusive, fmt.Sprintf("child-died leg=%s shard=%d err=%v fatal=%q", r.leg, r.shard, r.exitErr, fatal))
			os.MkdirAll(filepath.Join(root, "evidence", "replay"), 0o755)
			os.WriteFile(filepath.Join(root, "evidence", "replay", fmt.Sprintf("%s-childdied-%s-%d.txt", prop, r.leg, r.shard)), []byte(r.stderr), 0o644)
		}
	}
	viols = append(viols, raceViols...)

	// classify violations
	sort.SliceStable(viols, func(i, j int) bool { return viols[i].Key < viols[j].Key })
	knownHit := map[string]finding{}
	newByKey := map[string][]violation{}
	var newKeys []string
	for _, v := range viols {
		matched := false
		for _, f := range known {
			if f.prop == prop && f.key == v.Key {
				knownHit[v.Key] = f
				matched = true
				break
			}
		}
		if matched {
			continue
		}
		if _, ok := newByKey[v.Key]; !ok {
			newKeys = append(newKeys, v.Key)
		}
		newByKey[v.Key] = append(newByKey[v.Key], v)
	}

	distinct := int64(len(sigs)) + sigExtra
	floor := meta.MinNontrivial
	if tier == "thorough" && meta.MinNontrivialThorough > 0 {
		floor = meta.MinNontrivialThorough
	}
	if floor < 2 {
		floor = 2
	}
	if distinct < floor && len(inconclusive) == 0 && len(newKeys) == 0 {
		inconclusive = append(inconclusive, fmt.Sprintf("too-few-nontrivial-cases %d<%d", distinct, floor))
	}

	replayDir := filepath.Join(root, "evidence", "replay")
	exit := 0
	var vioLines []string
	if len(newKeys) > 0 {
		os.MkdirAll(replayDir, 0o755)
		exit = 1
		for i, k := range newKeys {
			if i >= 25 {
				break
			}
			v := newByKey[k][0]
			path := filepath.Join(replayDir, fmt.Sprintf("%s-%s-%d.json", prop, tier, i+1))
			rep := map[string]any{"property": prop, "tier": tier, "seed": seed, "leg": v.Leg, "shard": v.Shard,
				"nshards": nshardsOf(results, v.Leg), "case": v.Case, "key": v.Key, "detail": v.Detail, "input": v.Input,
				"occurrences": len(newByKey[k])}
			b, _ := json.MarshalIndent(rep, "", " ")
			os.WriteFile(path, b, 0o644)
			vioLines = append(vioLines, fmt.Sprintf("VIOLATION property=%s replay=%s", prop, path))
			fmt.Fprintf(os.Stderr, "--- %s key=%s case=%s\n%s\n", prop, v.Key, v.Case, firstLines(v.Detail, 30))
		}
	}
	for k, f := range knownHit {
		fmt.Printf("KNOWN-FINDING: property=%s key=%s %s\n", prop, k, f.text)
	}
	if exit == 0 && len(inconclusive) > 0 {
		exit = 2
	}

	if writeEvidence {
		cov := map[string]any{
			"evaluations":         evals,
			"distinct_nontrivial": distinct,
			"rule":                meta.Rule,
			"samples":             samples,
			"counters":            counters,
			"nontrivial_floor":    floor,
			"shards":              len(results),
		}
		if len(samples) == 0 {
			cov["samples"] = []any{"(no sample recorded)"}
		}
		if len(exh) > 0 {
			cov["exhaustive_subspaces"] = exh
			cov["exhaustive"] = false
		}
		if meta.RaceShards > 0 {
			cov["race_reports_total"] = raceReports
			cov["race_reports_attributed_distinct"] = len(raceViols)
		}
		if len(notes) > 0 {
			cov["notes"] = notes
		}
		if len(inconclusive) > 0 {
			cov["inconclusive"] = inconclusive
		}
		var kf []string
		for k := range knownHit {
			kf = append(kf, k)
		}
		sort.Strings(kf)
		if len(kf) > 0 {
			cov["known_findings_observed"] = kf
		}
		if len(newKeys) > 0 {
			cov["violation_keys"] = newKeys
		}
		verdict := "held-on-observed"
		if exit == 1 {
			verdict = "violated"
		} else if exit == 2 {
			verdict = "inconclusive"
		}
		cov["verdict"] = verdict
		ev := evidence{PropertyID: prop, Tier: tier, Seed: seed, Level: "exploration", Coverage: cov,
			Assumptions: meta.Assumptions, WallS: wall, Violations: len(newKeys)}
		if ev.Assumptions == nil {
			ev.Assumptions = []string{}
		}
		os.MkdirAll(filepath.Join(root, "evidence"), 0o755)
		b, _ := json.MarshalIndent(ev, "", " ")
		os.WriteFile(filepath.Join(root, "evidence", prop+".json"), append(b, '\n'), 0o644)
	}

	for _, l := range vioLines {
		fmt.Println(l)
	}
	switch exit {
	case 0:
		fmt.Printf("OK property=%s tier=%s seed=%d evaluations=%d distinct_nontrivial=%d wall=%.1fs\n", prop, tier, seed, evals, distinct, wall)
	case 2:
		fmt.Printf("INCONCLUSIVE property=%s reason=%s\n", prop, strings.Join(inconclusive, ";"))
	}
	return exit
}

func nshardsOf(results []*shardResult, leg string) int {
	for _, r := range results {
		if r != nil && r.leg == leg {
			return r.nshards
		}
	}
	return 1
}

func firstLines(s string, n int) string {
	l := strings.Split(s, "\n")
	if len(l) > n {
		l = l[:n]
	}
	return strings.Join(l, "\n")
}

// ---------------------------------------------------------------------------
// replay: re-run the shard that produced the witness, restricted to the case
// when the engine supports it, and report whether the same violation key recurs.

func runReplay(args []string) int {
	fs := flag.NewFlagSet("replay", flag.ExitOnError)
	file := fs.String("file", "", "")
	racebin := fs.String("racebin", "", "")
	fs.Parse(args)
	b, err := os.ReadFile(*file)
	if err != nil {
		fmt.Fprintln(os.Stderr, err)
		return 2
	}
	var rep struct {
		Property string          `json:"property"`
		Tier     string          `json:"tier"`
		Seed     int64           `json:"seed"`
		Leg      string          `json:"leg"`
		Shard    int             `json:"shard"`
		NShards  int             `json:"nshards"`
		Case     string          `json:"case"`
		Key      string          `json:"key"`
		Input    json.RawMessage `json:"input"`
	}
	if err := json.Unmarshal(b, &rep); err != nil {
		fmt.Fprintln(os.Stderr, err)
		return 2
	}
	work, _ := os.MkdirTemp("", "vreplay-")
	defer os.RemoveAll(work)
	self, _ := os.Executable()
	bin := self
	if rep.Leg == "race" {
		if *racebin == "" {
			fmt.Fprintln(os.Stderr, "race leg needs -racebin")
			return 2
		}
		bin = *racebin
	}
	inp := ""
	if len(rep.Input) > 0 && !bytes.Equal(rep.Input, []byte("null")) {
		inp = filepath.Join(work, "input.json")
		os.WriteFile(inp, rep.Input, 0o644)
	}
	meta := core.MetaOf(rep.Property)
	r := runShard(work, rep.Property, rep.Tier, rep.Seed, rep.Leg, rep.Shard, rep.NShards, bin, meta, time.Hour, rep.Case, inp)
	rv, _ := collectRaceReports(work, meta)
	all := append(r.viols, rv...)
	hit := false
	for _, v := range all {
		fmt.Printf("replayed violation key=%s case=%s\n%s\n", v.Key, v.Case, firstLines(v.Detail, 60))
		if v.Key == rep.Key {
			hit = true
		}
	}
	if r.done == nil && r.openCase != nil {
		fmt.Printf("child died in case %s\n%s\n", r.openCase.Case, firstLines(r.stderr, 60))
		hit = true
	}
	if hit {
		fmt.Printf("VIOLATION property=%s replay=%s\n", rep.Property, *file)
		return 1
	}
	fmt.Println("not reproduced")
	return 0
}
