// Temporary development runner for rsaeng/jsoneng (removed before the final report).
package main

import (
	"flag"
	"fmt"
	"os"

	_ "verifharness/engines/jsoneng"
	_ "verifharness/engines/rsaeng"
	"verifharness/internal/core"
)

func main() {
	prop := flag.String("prop", "C23", "")
	tier := flag.String("tier", "quick", "")
	seed := flag.Int64("seed", 1, "")
	shard := flag.Int("shard", 0, "")
	nshards := flag.Int("nshards", 16, "")
	out := flag.String("out", "/tmp/rjdev.jsonl", "")
	flag.Parse()
	e, ok := core.Lookup(*prop)
	if !ok {
		fmt.Println("no engine")
		os.Exit(3)
	}
	c, err := core.NewCtx(*prop, *tier, *seed, *shard, *nshards, *out)
	if err != nil {
		panic(err)
	}
	c.Leg = "main"
	e(c)
	c.Finish()
}
