//go:debug rsa1024min=0

// genkeys generates the fixed key pool committed under harness/internal/keys/pool.json.
// It is run once by hand; checks never generate keys.
package main

import (
	"crypto/dsa"
	"crypto/ecdsa"
	"crypto/ed25519"
	"crypto/elliptic"
	"crypto/rand"
	"crypto/rsa"
	"encoding/hex"
	"encoding/json"
	"fmt"
	"math/big"
	"os"
)

type RSAKey struct {
	Bits   int
	N, D   string
	E      int
	Primes []string
}
type ECKey struct{ Curve, D string }
type EdKey struct{ Seed string }
type DSAKey struct{ L, N int; P, Q, G, Y, X string }
type Pool struct {
	RSA []RSAKey
	EC  []ECKey
	Ed  []EdKey
	DSA []DSAKey
}

func h(b *big.Int) string { return b.Text(16) }

func main() {
	var p Pool
	add := func(k *rsa.PrivateKey, bits int) {
		r := RSAKey{Bits: bits, N: h(k.N), D: h(k.D), E: k.E}
		for _, q := range k.Primes {
			r.Primes = append(r.Primes, h(q))
		}
		p.RSA = append(p.RSA, r)
	}
	for _, spec := range []struct{ bits, n int }{{512, 2}, {768, 1}, {1024, 4}, {1536, 1}, {2048, 4}, {3072, 1}, {4096, 1}} {
		for i := 0; i < spec.n; i++ {
			k, err := rsa.GenerateKey(rand.Reader, spec.bits)
			if err != nil {
				panic(err)
			}
			add(k, spec.bits)
			fmt.Fprintln(os.Stderr, "rsa", spec.bits)
		}
	}
	for _, spec := range []struct{ bits, np int }{{1024, 3}, {1536, 3}, {2048, 3}, {2048, 4}, {2048, 5}, {1536, 4}} {
		k, err := rsa.GenerateMultiPrimeKey(rand.Reader, spec.np, spec.bits)
		if err != nil {
			panic(err)
		}
		add(k, spec.bits)
		fmt.Fprintln(os.Stderr, "rsa multi", spec.bits, spec.np)
	}
	for _, c := range []struct {
		name string
		c    elliptic.Curve
	}{{"P224", elliptic.P224()}, {"P256", elliptic.P256()}, {"P384", elliptic.P384()}, {"P521", elliptic.P521()}} {
		for i := 0; i < 4; i++ {
			k, err := ecdsa.GenerateKey(c.c, rand.Reader)
			if err != nil {
				panic(err)
			}
			p.EC = append(p.EC, ECKey{c.name, h(k.D)})
		}
	}
	for i := 0; i < 4; i++ {
		_, priv, _ := ed25519.GenerateKey(rand.Reader)
		p.Ed = append(p.Ed, EdKey{hex.EncodeToString(priv.Seed())})
	}
	for _, sz := range []struct {
		s    dsa.ParameterSizes
		l, n int
	}{{dsa.L1024N160, 1024, 160}, {dsa.L2048N224, 2048, 224}, {dsa.L2048N256, 2048, 256}} {
		var params dsa.Parameters
		if err := dsa.GenerateParameters(&params, rand.Reader, sz.s); err != nil {
			panic(err)
		}
		for i := 0; i < 2; i++ {
			k := &dsa.PrivateKey{PublicKey: dsa.PublicKey{Parameters: params}}
			if err := dsa.GenerateKey(k, rand.Reader); err != nil {
				panic(err)
			}
			p.DSA = append(p.DSA, DSAKey{sz.l, sz.n, h(k.P), h(k.Q), h(k.G), h(k.Y), h(k.X)})
		}
		fmt.Fprintln(os.Stderr, "dsa", sz.l)
	}
	b, _ := json.MarshalIndent(p, "", " ")
	os.WriteFile("internal/keys/pool.json", b, 0o644)
}
