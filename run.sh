#!/bin/bash
# ./run.sh <Cnn> <quick|thorough>   — rebuilds the harness against /repo's working tree (tag verif) and runs one property's monitor.
# exit 0 held on what was observed / 1 VIOLATION / 2 INCONCLUSIVE
set -u
PROP="${1:?property id}"; TIER="${2:-${VERIF_TIER:-quick}}"
HERE="$(cd "$(dirname "$0")" && pwd)"
. "$HERE/env.sh"
export VERIF_ROOT="$HERE"
mkdir -p "$HERE/.bin" "$HERE/evidence"
build() { # $1 = output, rest = flags
  local out="$1"; shift
  ( cd "$HERE/harness" && flock "$HERE/.bin/.lock" go build -tags verif "$@" -o "$out.tmp.$$" ./cmd/vcheck && mv -f "$out.tmp.$$" "$out" )
}
if ! build "$HERE/.bin/vcheck" 2> "$HERE/.bin/build.$$.log"; then
  cat "$HERE/.bin/build.$$.log" >&2; rm -f "$HERE/.bin/build.$$.log"
  echo "INCONCLUSIVE property=$PROP reason=build-failed"; exit 2
fi
rm -f "$HERE/.bin/build.$$.log"
RACE=()
if "$HERE/.bin/vcheck" list | grep -q "^$PROP race_shards=[1-9]"; then
  if ! build "$HERE/.bin/vcheck-race" -race 2> "$HERE/.bin/buildr.$$.log"; then
    cat "$HERE/.bin/buildr.$$.log" >&2; rm -f "$HERE/.bin/buildr.$$.log"
    echo "INCONCLUSIVE property=$PROP reason=race-build-failed"; exit 2
  fi
  rm -f "$HERE/.bin/buildr.$$.log"
  RACE=(-racebin "$HERE/.bin/vcheck-race")
fi
exec "$HERE/.bin/vcheck" run -prop "$PROP" -tier "$TIER" "${RACE[@]}"
