#!/bin/bash
# ./replay.sh <replay-file>  — rebuilds and re-runs the shard/case that produced a witness; exit 1 if the same violation recurs.
set -u
HERE="$(cd "$(dirname "$0")" && pwd)"
. "$HERE/env.sh"
export VERIF_ROOT="$HERE"
mkdir -p "$HERE/.bin"
( cd "$HERE/harness" && go build -tags verif -o "$HERE/.bin/vcheck" ./cmd/vcheck ) || exit 2
RACE=()
if grep -q '"leg": "race"' "$1"; then
  ( cd "$HERE/harness" && go build -race -tags verif -o "$HERE/.bin/vcheck-race" ./cmd/vcheck ) || exit 2
  RACE=(-racebin "$HERE/.bin/vcheck-race")
fi
exec "$HERE/.bin/vcheck" replay -file "$1" "${RACE[@]}"
