#!/bin/bash
# Builds the harness (plain and -race) from files on disk only; run once after a fresh restore.
set -e
HERE="$(cd "$(dirname "$0")" && pwd)"
. "$HERE/env.sh"
mkdir -p "$HERE/.bin" "$HERE/evidence"
cd "$HERE/harness"
cp /repo/go.sum go.sum.repo 2>/dev/null || true
go build -tags verif -o "$HERE/.bin/vcheck" ./cmd/vcheck
go build -race -tags verif -o "$HERE/.bin/vcheck-race" ./cmd/vcheck
"$HERE/.bin/vcheck" list
