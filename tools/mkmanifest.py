#!/usr/bin/env python3
"""Regenerates /verif/MANIFEST.json from tools/claims.json (one entry per claimed property) and properties.jsonl.
Every property without a claim is listed under not_applicable with the reason given in claims.json["unclaimed"] or a default."""
import json, os, subprocess, sys
root = os.path.dirname(os.path.dirname(os.path.abspath(__file__)))
props = [json.loads(l) for l in open(os.path.join(root, "properties.jsonl")) if l.strip()]
claims = json.load(open(os.path.join(root, "tools", "claims.json")))
hooks = subprocess.run(["git","-C","/repo","log","--reverse","--format=%H","--grep=^verif hook"],capture_output=True,text=True).stdout.split() or claims.get("hook_commits", [])
checks, na = [], []
for p in props:
    pid = p["id"]
    c = claims["claimed"].get(pid)
    if c is None:
        na.append({"property_id": pid, "reason": claims.get("unclaimed", {}).get(pid, "monitor not built yet; the property is decidable by runtime monitoring (see DESIGN.md section 4) but no check is registered for it at this commit")})
        continue
    checks.append({
        "property_id": pid,
        "quick_cmd": f"./run.sh {pid} quick",
        "thorough_cmd": f"./run.sh {pid} thorough",
        "evidence_file": f"/verif/evidence/{pid}.json",
        "replay_cmd_template": "./replay.sh {path}",
        "engine": c["engine"],
        "level_claimed": {"category": "exploration", "text": c["text"], "design_ref": f"DESIGN.md section 4, {pid}"},
        "level_note": c["note"],
        "technique": c["technique"],
    })
m = {
    "version": 1,
    "setup_cmd": "./setup.sh",
    "hooks": {
        "guard": "verif",
        "enable": "go build -tags verif (the harness module replaces github.com/zmap/zcrypto with /repo, so /repo's working tree is what gets compiled)",
        "baseline_off_cmd": "/verif/tools/baseline.sh",
        "source_commits": hooks,
        "add_only": True,
    },
    "engines": claims.get("engines", []),
    "checks": checks,
    "notes": claims.get("notes", ""),
    "not_applicable": na,
}
json.dump(m, open(os.path.join(root, "MANIFEST.json"), "w"), indent=1)
print(f"{len(checks)} claimed, {len(na)} unclaimed")
