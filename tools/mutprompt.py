#!/usr/bin/env python3
"""Prints the prompt given to a fresh break-seeding sub-agent for one property (property text only, nothing from /verif)."""
import json, sys
pid = sys.argv[1]; n = sys.argv[2] if len(sys.argv) > 2 else "1"
wt = f"/tmp/mut-{pid}-{n}"
p = [json.loads(l) for l in open('/verif/properties.jsonl') if l.strip()]
p = [x for x in p if x['id'] == pid][0]
hint = sys.argv[3] if len(sys.argv) > 3 else ""
print(f"""You are helping to test a verification effort by seeding a realistic bug. You work ONLY inside the scratch git worktree {wt} (a checkout of the Go library zmap/zcrypto: a research fork of crypto/tls and crypto/x509 with a permissive ASN.1 codec, CT structures, OCSP/CRL parsing and a certificate-chain verifier graph). Do not read or write anything under /verif or /repo.

Property that should hold for the library ("{p['title']}"):
{p['statement']}
It is quantified over: {p['quantifier']['text']}

Task: make ONE small change to the library source (non-test .go files; do not touch files named zz_verif_*.go and do not use build tags) that BREAKS this property, while
 (1) the library still compiles (`go build ./...` and `go vet` of the touched package need not be clean, but build must pass),
 (2) the existing test suite of the touched packages still passes exactly as before your change (run `go test -vet=off -count=1 ./<pkg>/...` before and after; some tests need the network and fail in this sandbox both before and after — those do not count),
 (3) the break needs something specific to manifest — a particular interleaving, a fault at a particular point, a multi-step sequence of operations, an unusual input or configuration, or two cooperating sites that each look fine alone — NOT something ordinary use would expose at once. It should look like a plausible mistake or an over-eager optimisation/refactoring a maintainer could make, not sabotage. {hint}

Also write a demonstration: a Go test file (package-internal or external) or a small program that FAILS with your change and PASSES without it, showing the property violation concretely.

Environment: run `export GOFLAGS=-mod=mod GOPROXY=off` in every shell call; do NOT set GOSUMDB or GOTOOLCHAIN; there is no network; only modules already in the module cache are available. Work in {wt}.

Deliverables, all under {wt}/_out/ (create it):
 - patch.diff   : `git diff` of your source change only (no test/demo files), applicable with `git apply` at the worktree's HEAD
 - the demonstration file(s) + a one-line command in README.md saying how to run it from the worktree root (e.g. copy demo_test.go into ./tls and run `go test -run TestDemo ./tls`)
 - README.md    : what you changed, why it breaks the property, what it needs in order to manifest, which existing tests you ran (before/after results)
NEVER use `git stash` (the stash is shared between worktrees of this repository and other people are working in sibling worktrees): to test without your change use `git diff > _out/patch.diff; git apply -R _out/patch.diff; ...; git apply _out/patch.diff`. Before finishing: verify the demo fails with the patch and passes after reverting it that way, and leave the worktree with your source change applied and the demo files only under _out/. Reply with a 10-line summary.""")
