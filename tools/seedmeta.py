#!/usr/bin/env python3
"""tools/seedmeta.py <seed-id> <property> <needs> <ran> [<result>]  — writes/updates seeded/<seed-id>/meta.json"""
import json, os, sys
sid, prop, needs, ran = sys.argv[1:5]
res = sys.argv[5] if len(sys.argv) > 5 else None
d = f"/verif/seeded/{sid}"
p = os.path.join(d, "meta.json")
m = json.load(open(p)) if os.path.exists(p) else {}
m.update({"seed_id": sid, "breaks_property": prop})
if needs: m["needs_to_manifest"] = needs
if ran: m["confirmed_by"] = ran
if res: m.setdefault("check_results", []).append(res)
m["files"] = sorted(f for f in os.listdir(d) if f != "meta.json")
json.dump(m, open(p, "w"), indent=1)
