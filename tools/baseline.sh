#!/bin/bash
# Runs zcrypto's own suite with the verif tag OFF and checks that every test of the pinned stable-pass list passes.
# (Tests that need the network fail in the sandbox and are not in the list.)
HERE="$(cd "$(dirname "$0")/.." && pwd)"
. "$HERE/env.sh"
OUT="$(mktemp)"
( cd /repo && go test -json -vet=off -count=1 -timeout 25m ./... ) > "$OUT" 2>/dev/null
python3 - "$OUT" "$HERE/tools/baseline_stable_pass.txt" <<'PY'
import json, sys
passed=set()
for l in open(sys.argv[1]):
    try: e=json.loads(l)
    except Exception: continue
    if e.get("Action")=="pass" and e.get("Test"):
        passed.add(e["Package"]+"::"+e["Test"])
want=[l.strip() for l in open(sys.argv[2]) if l.strip()]
missing=[w for w in want if w not in passed]
print(f"stable-pass tests: {len(want)}, passed now: {len(want)-len(missing)}")
# a test that fails in the full parallel run is re-run alone (ct/client has wall-clock tolerance tests that flake under load)
import subprocess, os
still=[]
for m in missing:
    pkg, test = m.split("::",1)
    top = test.split("/")[0]
    rel = "./" + pkg[len("github.com/zmap/zcrypto/"):] if pkg != "github.com/zmap/zcrypto" else "."
    ok = False
    for attempt in range(2):
        r = subprocess.run(["go","test","-json","-vet=off","-count=1","-run","^"+top+"$",rel],cwd="/repo",capture_output=True,text=True)
        for l in r.stdout.splitlines():
            try: e=json.loads(l)
            except Exception: continue
            if e.get("Action")=="pass" and e.get("Test")==test: ok=True
        if ok: break
    print(("RE-RUN ALONE PASSES: " if ok else "NOT PASSING: ")+m)
    if not ok: still.append(m)
sys.exit(1 if still else 0)
PY
rc=$?
rm -f "$OUT"
exit $rc
