#!/bin/bash
# tools/final_seed_pass.sh [seed-id...]  — the canonical run of the seeded changes: apply each patch to /repo itself
# (git -C /repo apply), run the broken property's registered quick check, undo (git -C /repo checkout -- .), record the outcome.
# Needs exclusive use of /repo. Evidence files written during these runs are restored afterwards.
cd /verif
IDS="$@"; [ -z "$IDS" ] && IDS=$(ls seeded | sort)
git -C /repo status --short | grep -v '^??' | grep -q . && { echo "/repo has uncommitted changes"; exit 2; }
mkdir -p /tmp/evidence.keep && cp evidence/*.json /tmp/evidence.keep/
for id in $IDS; do
  d=seeded/$id
  prop=$(python3 -c "import json;print(json.load(open('$d/meta.json'))['breaks_property'])" 2>/dev/null)
  if ! git -C /repo apply /verif/$d/patch.diff 2>/dev/null; then echo "$id $prop APPLY-FAILED"; continue; fi
  out=$(./run.sh $prop quick 2>/dev/null); rc=$?
  git -C /repo checkout -- .
  nv=$(echo "$out" | grep -c '^VIOLATION')
  echo "$id $prop exit=$rc violations=$nv"
  python3 tools/seedmeta.py "$id" "$prop" "" "" "FINAL: git -C /repo apply seeded/$id/patch.diff; ./run.sh $prop quick -> exit=$rc, VIOLATION lines=$nv; git -C /repo checkout -- ." 2>/dev/null
done
cp /tmp/evidence.keep/*.json evidence/; rm -rf /tmp/evidence.keep evidence/replay
git -C /repo status --short | grep -v '^??'
