#!/bin/bash
# tools/sweep.sh [tier] [seed] [props...] — runs the registered checks one after the other and prints a result table
TIER="${1:-quick}"; SEED="${2:-1}"; shift 2 2>/dev/null
cd "$(dirname "$0")/.."
PROPS="$@"
[ -z "$PROPS" ] && PROPS=$(python3 -c "import json;print(' '.join(c['property_id'] for c in json.load(open('MANIFEST.json'))['checks']))" 2>/dev/null)
for p in $PROPS; do
  t0=$(date +%s)
  out=$(VERIF_SEED=$SEED ./run.sh $p $TIER 2>/tmp/sweep.$p.err)
  rc=$?
  t1=$(date +%s)
  echo "$p rc=$rc $((t1-t0))s $(echo "$out" | grep -E '^OK|^INCONCLUSIVE' | head -1 | cut -c1-160) $(echo "$out" | grep -c '^VIOLATION') viol $(echo "$out" | grep -c '^KNOWN-FINDING') known"
  [ $rc -ne 0 ] && head -c 1500 /tmp/sweep.$p.err
  rm -f /tmp/sweep.$p.err
done
