#!/bin/bash
# tools/try_seed.sh <seed-id> [tier] — runs the broken property's check against a scratch copy with the seeded patch; records the outcome in meta.json
ID="$1"; TIER="${2:-quick}"
D=/verif/seeded/$ID
PROP=$(python3 -c "import json;print(json.load(open('$D/meta.json'))['breaks_property'])" 2>/dev/null)
OUT=$(/verif/tools/try_patch.sh $D/patch.diff $PROP $TIER 2>&1 | grep -v conda)
RC=$(echo "$OUT" | grep -o "exit=[0-9]*" | tail -1)
KEYS=$(echo "$OUT" | grep "^VKEY " | sed 's/^VKEY //' | sort -u | head -8 | tr '\n' ' ')
NV=$(echo "$OUT" | grep -c "^VIOLATION")
echo "$ID $PROP $TIER $RC violations=$NV $KEYS"
python3 /verif/tools/seedmeta.py "$ID" "$PROP" "" "" "./run.sh $PROP $TIER on a scratch copy of /repo with the patch (tools/try_patch.sh): $RC, VIOLATION lines=$NV, keys: $KEYS" 2>/dev/null
