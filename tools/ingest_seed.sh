#!/bin/bash
# tools/ingest_seed.sh <Cnn> <n> <demo-file-name> <pkg> <test-regex> "<needs>"  — confirm, store, remove the worktree, run the check
P="$1"; N="$2"; DEMO="$3"; PKG="$4"; RE="$5"; NEEDS="$6"
WT=/tmp/mut-$P-$N; ID=$P-$N
cd /verif
OUT=$(FULL=${FULL:-0} tools/confirm_seed.sh $WT $WT/_out/$DEMO $PKG "$RE" $ID 2>&1 | grep -E "pinned|suite-ok|CONFIRMED|NOT PASSING")
echo "$OUT"
if echo "$OUT" | grep -q "^CONFIRMED"; then
  cp $WT/_out/before.txt $WT/_out/after.txt seeded/$ID/ 2>/dev/null
  git -C /repo worktree remove --force $WT
  PT=$(echo "$OUT" | grep pinned | head -1)
  python3 tools/seedmeta.py $ID $P "$NEEDS" "tools/confirm_seed.sh in a scratch worktree: go build ./... ok; $PT; demonstration fails with the change and passes without it" 2>/dev/null
  tools/try_seed.sh $ID | cut -c1-400
fi
