#!/bin/bash
# tools/confirm_seed.sh <worktree> <demo-file> <pkg-dir-relative> <test-regex> <id>
# Confirms a seeded change in its scratch worktree: builds, the touched packages' pinned tests still pass,
# the demonstration fails with the change and passes without it; then stores it under /verif/seeded/<id>/.
set -u
WT="$1"; DEMO="$2"; PKG="$3"; RE="$4"; ID="$5"
. /verif/env.sh
cd "$WT" || exit 2
PATCH="$WT/_out/patch.diff"
git checkout -q -- . && git apply "$PATCH" || { echo "patch does not apply at HEAD"; exit 2; }
go build ./... || { echo "BUILD FAILS"; exit 1; }
PKGS=$(git diff --name-only | xargs -n1 dirname | sort -u | sed "s#^#./#"); [ "${FULL:-0}" = 1 ] && PKGS=$(go list ./... | sed "s#github.com/zmap/zcrypto#.#")
echo "touched packages: $PKGS"
go test -json -vet=off -count=1 $PKGS 2>/dev/null > /tmp/confirm.$$.json
python3 - /tmp/confirm.$$.json /verif/tools/baseline_stable_pass.txt $PKGS <<'PY'
import json,sys
passed=set()
for l in open(sys.argv[1]):
    try: e=json.loads(l)
    except Exception: continue
    if e.get("Action")=="pass" and e.get("Test"): passed.add(e["Package"]+"::"+e["Test"])
pk=["github.com/zmap/zcrypto/"+p[2:] for p in sys.argv[3:]]
want=[l.strip() for l in open(sys.argv[2]) if l.strip() and l.split("::")[0] in pk]
miss=[w for w in want if w not in passed]
print(f"pinned tests in touched packages: {len(want)}, passing with the change: {len(want)-len(miss)}")
for m in miss[:10]: print("  NOT PASSING:",m)
sys.exit(1 if miss else 0)
PY
T=$?; rm -f /tmp/confirm.$$.json
cp "$DEMO" "$PKG/zz_seed_demo_test.go"
go test ${GOTESTFLAGS:-} -vet=off -count=1 -run "$RE" "./$PKG" > /tmp/confirm.$$.with 2>&1; W=$?
git apply -R "$PATCH"
go test ${GOTESTFLAGS:-} -vet=off -count=1 -run "$RE" "./$PKG" > /tmp/confirm.$$.without 2>&1; WO=$?
rm -f "$PKG/zz_seed_demo_test.go"
git apply "$PATCH"
echo "suite-ok=$T demo-with-change-exit=$W (want !=0) demo-without-change-exit=$WO (want 0)"
tail -5 /tmp/confirm.$$.with
if [ $T -eq 0 ] && [ $W -ne 0 ] && [ $WO -eq 0 ]; then
  mkdir -p /verif/seeded/$ID && cp "$PATCH" /verif/seeded/$ID/patch.diff && cp "$DEMO" /verif/seeded/$ID/ && cp "$WT/_out/README.md" /verif/seeded/$ID/README.md 2>/dev/null
  echo "CONFIRMED -> /verif/seeded/$ID"
else
  echo "NOT CONFIRMED"
fi
rm -f /tmp/confirm.$$.with /tmp/confirm.$$.without
