#!/usr/bin/env python3
"""Regenerates DESIGN.md section 9.5 (between the BEGIN 9.5 / END 9.5 markers) from logs/sweep-quick-seed1.log and logs/sweep-thorough-seed1.log."""
import re
root = '/verif'
def load(p):
    r = {}
    try:
        for l in open(p):
            m = re.match(r'(C\d+) rc=(\d+) (\d+)s (\w+) .*?evaluations=(\d+) distinct_nontrivial=(\d+) wall=([\d.]+)s', l)
            if m: r[m.group(1)] = (m.group(2), m.group(3), m.group(4), m.group(5), m.group(6), m.group(7))
    except FileNotFoundError:
        pass
    return r
q = load(f'{root}/logs/sweep-quick-seed1.log'); t = load(f'{root}/logs/sweep-thorough-seed1.log')
out = ["### 9.5 Measured cost and reach (final sweeps, seed 1, 16 cores)\n",
       "`wall` is the supervisor's time for the children; `total` is `./run.sh` including the incremental build (≈1 min more for the first plain",
       "build and ≈1 min for the first `-race` build after a restore). Source: `logs/sweep-quick-seed1.log`, `logs/sweep-thorough-seed1.log`",
       "(written by `tools/sweep.sh`; every line there ended with exit code 0).\n",
       "| property | quick total s | quick wall s | quick evaluations | quick distinct non-trivial | thorough total s | thorough wall s | thorough evaluations | thorough distinct non-trivial |",
       "|---|---|---|---|---|---|---|---|---|"]
for i in range(1, 36):
    p = 'C%02d' % i
    a = q.get(p); b = t.get(p)
    f = lambda x: (x[1], x[5], x[3], x[4]) if x else ('', '', '', '')
    out.append('| %s | %s | %s | %s | %s | %s | %s | %s | %s |' % ((p,) + f(a) + f(b)))
s = open(f'{root}/DESIGN.md').read()
i = s.index('<!-- BEGIN 9.5 -->'); j = s.index('<!-- END 9.5 -->')
s = s[:i] + '<!-- BEGIN 9.5 -->\n' + '\n'.join(out) + '\n' + s[j:]
open(f'{root}/DESIGN.md', 'w').write(s)
print('9.5 rows', len(q), len(t))
