#!/usr/bin/env python3
"""Regenerates the generated part of DESIGN.md section 9 (between the markers) from KNOWN_FINDINGS.txt and seeded/*/meta.json."""
import json, glob, os, re
root = '/verif'
kf = open(f'{root}/KNOWN_FINDINGS.txt').read().splitlines()
fixed = [l for l in kf if l.startswith('fixed:')]
finds = [l for l in kf if l.startswith('finding:')]
out = []
out.append("### 9.3 Genuine defects found by the monitors on the pinned tree\n")
out.append("Every line below was first reported by the named property's monitor as a VIOLATION on the unchanged tree, examined, judged to be a")
out.append("defect of zcrypto (not of the check), and repaired by one unguarded `fix:` commit in /repo; the monitors pass on the repaired tree")
out.append("without any KNOWN-FINDING line for them and report the violation again if the fix is reverted (each builder's sensitivity trial")
out.append("re-ran its monitor with the fix removed).\n")
out.append("| property | fix commit | what failed |\n|---|---|---|")
for l in fixed:
    m = re.match(r'fixed:\s+property=(C\d+)\s+(\S+)\s+(.*)', l)
    if m: out.append("| %s | `%s` | %s |" % (m.group(1), m.group(2), m.group(3).replace('|', '/')))
out.append("\nRecorded, not repaired (`finding:` lines; the check prints KNOWN-FINDING for exactly these witness keys and exits 0):\n")
out.append("| property | witness key | what fails |\n|---|---|---|")
for l in finds:
    m = re.match(r'finding:\s+property=(C\d+)\s+key=(\S+)\s+(.*)', l)
    if m: out.append("| %s | `%s` | %s |" % (m.group(1), m.group(2), m.group(3).replace('|', '/')))
out.append("\n### 9.4 Seeded changes and which checks catch them\n")
out.append("Each change was written by a fresh sub-agent that saw only the property text and its own scratch worktree; it was kept after")
out.append("`tools/confirm_seed.sh` confirmed in a scratch worktree that it builds, that the pinned tests of the touched packages still pass and")
out.append("that its demonstration fails with the change and passes without it. `check_results` in `seeded/<id>/meta.json` is the log of runs;")
out.append("the last entry is the current state.\n")
out.append("| seed | property | needs, to manifest | latest result of the property's quick check |\n|---|---|---|---|")
for d in sorted(glob.glob(f'{root}/seeded/*/meta.json')):
    m = json.load(open(d))
    res = m.get('check_results', ['(not run yet)'])
    own = [r for r in res if not r.startswith('cross-check')]
    cross = [r for r in res if r.startswith('cross-check') and 'exit=1' in r]
    last = own[-1] if own else '(not run yet)'
    caught = 'exit=1' in last
    missed_before = any('exit=0' in r or 'exit=2' in r for r in own[:-1])
    keys = re.findall(r'key=(\S+)', last)[:3]
    if not keys and caught:
        for r in reversed(own):
            if 'exit=1' in r and 'key=' in r:
                keys = re.findall(r'key=(\S+)', r)[:3]; break
    if caught:
        verdict = "caught" + (" (after strengthening; an earlier run missed it)" if missed_before else "")
    elif cross:
        verdict = "not by this property's own check; " + cross[-1].replace('cross-check: ', 'caught by cross-check: ')[:260]
    else:
        verdict = "NOT caught"
    out.append(f"| {m['seed_id']} | {m['breaks_property']} | {m.get('needs_to_manifest','').replace('|','/')} | {verdict}{': ' + ', '.join('`'+k+'`' for k in keys) if keys and caught else ''} |")
gen = "\n".join(out) + "\n"
p = f'{root}/DESIGN.md'
s = open(p).read()
B, E = "<!-- BEGIN GENERATED 9.3-9.4 -->", "<!-- END GENERATED 9.3-9.4 -->"
if B in s:
    s = s[:s.index(B)] + B + "\n" + gen + E + s[s.index(E)+len(E):]
else:
    s += "\n" + B + "\n" + gen + E + "\n"
open(p, 'w').write(s)
print("ok", len(fixed), "fixed", len(finds), "findings")
