#!/bin/bash
# tools/prep_round.sh <n> <Cnn>...  — creates scratch worktrees /tmp/mut-<Cnn>-<n> with a _TASK.md whose hint lists the sites of earlier seeded changes
N="$1"; shift
for p in "$@"; do
  HINT=$(python3 - "$p" <<'PY' 2>/dev/null
import glob,sys,re
pid=sys.argv[1]; sites=[]
for d in sorted(glob.glob(f'/verif/seeded/{pid}-*/patch.diff')):
    f=None
    for l in open(d):
        if l.startswith('+++ b/'): f=l[6:].strip()
        m=re.match(r'@@.*@@\s*(func .*)',l)
        if m and f: sites.append(f+" near `"+m.group(1).strip()[:70]+"`")
        elif l.startswith('@@') and f: sites.append(f)
sites=sorted(set(sites))
print("Earlier seeded changes for this property already touched: "+"; ".join(sites)+". Choose a DIFFERENT function and a different mechanism or clause of the statement than those." if sites else "")
PY
)
  git -C /repo worktree add -q /tmp/mut-$p-$N HEAD 2>&1 | grep -v conda
  python3 /verif/tools/mutprompt.py $p $N "$HINT" 2>/dev/null > /tmp/mut-$p-$N/_TASK.md
done
git -C /repo worktree list | wc -l
