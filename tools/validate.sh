#!/bin/bash
# Validates MANIFEST.json and every evidence file against the schemas.
cd "$(dirname "$0")/.."
python3-vt - <<'PY'
import json, jsonschema, glob, sys
ok = True
try:
    jsonschema.validate(json.load(open('MANIFEST.json')), json.load(open('/root/.vp/MANIFEST.schema.json'))); print('MANIFEST ok')
except Exception as e:
    ok = False; print('MANIFEST INVALID', str(e)[:500])
es = json.load(open('/root/.vp/EVIDENCE.schema.json'))
m = json.load(open('MANIFEST.json'))
claimed = {c['property_id'] for c in m['checks']}
props = [json.loads(l)['id'] for l in open('properties.jsonl') if l.strip()]
na = {x['property_id'] for x in m.get('not_applicable', [])}
for p in props:
    if (p in claimed) == (p in na):
        ok = False; print('property', p, 'must be exactly one of claimed / not_applicable')
for p in sorted(claimed):
    f = f'evidence/{p}.json'
    try:
        e = json.load(open(f)); jsonschema.validate(e, es)
        print(f, 'ok', e['tier'], 'evals', e['coverage'].get('evaluations'), 'distinct', e['coverage'].get('distinct_nontrivial'), 'verdict', e['coverage'].get('verdict'))
    except Exception as ex:
        ok = False; print(f, 'INVALID', str(ex)[:300])
sys.exit(0 if ok else 1)
PY
