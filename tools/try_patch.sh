#!/bin/bash
# tools/try_patch.sh <patch.diff> <Cnn> [tier] [seed]
# Runs one property's monitor against a scratch copy of /repo's working tree with a patch applied
# (used while other work is going on in /repo; the registered checks themselves always run against /repo).
set -u
PATCH="$(readlink -f "$1")"; PROP="$2"; TIER="${3:-quick}"; SEED="${4:-1}"
HERE="$(cd "$(dirname "$0")/.." && pwd)"
. "$HERE/env.sh"
S="$(mktemp -d /tmp/trypatch-XXXXXX)"
[ "${KEEP:-0}" = 1 ] || trap 'rm -rf "$S"' EXIT; echo "scratch=$S"
rsync -a --exclude .git /repo/ "$S/repo/"
( cd "$S/repo" && patch -p1 -s < "$PATCH" ) || { echo "patch does not apply"; exit 3; }
rsync -a --exclude .git "$HERE/harness/" "$S/harness/"
sed -i "s#=> /repo#=> $S/repo#" "$S/harness/go.mod"
# link only the engine that serves this property (other engines may be mid-edit)
ENG="$(grep -l "RegisterMeta(\"$PROP\"" "$S"/harness/engines/*/*.go | head -1 | xargs dirname | xargs basename)"
printf 'package engines\n\nimport _ "verifharness/engines/%s"\n' "$ENG" > "$S/harness/engines/all.go"
mkdir -p "$S/root/evidence"
cp "$HERE/KNOWN_FINDINGS.txt" "$S/root/"
( cd "$S/harness" && go build -tags verif -o "$S/vcheck" ./cmd/vcheck ) || { echo "build failed"; exit 3; }
RACE=()
if "$S/vcheck" list | grep -q "^$PROP race_shards=[1-9]"; then
  ( cd "$S/harness" && go build -race -tags verif -o "$S/vcheck-race" ./cmd/vcheck ) || { echo "race build failed"; exit 3; }
  RACE=(-racebin "$S/vcheck-race")
fi
VERIF_ROOT="$S/root" VERIF_SEED="$SEED" "$S/vcheck" run -prop "$PROP" -tier "$TIER" "${RACE[@]}" 2>"$S/stderr.txt"
rc=$?
head -c 3000 "$S/stderr.txt"
echo; grep -o '^--- C[0-9]* key=[^ ]*' "$S/stderr.txt" | sed 's/^--- C[0-9]* /VKEY /' | sort -u
echo "exit=$rc"
exit $rc
